package main

// E9 (second part): token/charset extraction by finite evaluation. For one call of the cursor's read primitive the
// branch predicates that follow it are evaluated for each of the 257 possible results (-1 = end of input, 0..255),
// giving the set of bytes that are consumed at this site, the set that are pushed back, and where control goes next.

import (
	"fmt"
	"go/constant"
	"go/token"
	"go/types"
	"sort"
	"strings"

	"golang.org/x/tools/go/ssa"
)

type byteSet [257]bool // index c+1

func (s *byteSet) add(c int)      { s[c+1] = true }
func (s *byteSet) has(c int) bool { return s[c+1] }
func (s *byteSet) empty() bool {
	for _, b := range s {
		if b {
			return false
		}
	}
	return true
}
func (s *byteSet) equal(o *byteSet) bool { return *s == *o }
func (s *byteSet) subset(o *byteSet) bool {
	for i, b := range s {
		if b && !o[i] {
			return false
		}
	}
	return true
}

func setOf(cs ...int) *byteSet {
	var s byteSet
	for _, c := range cs {
		s.add(c)
	}
	return &s
}

func rangeSet(pairs ...int) *byteSet {
	var s byteSet
	for i := 0; i+1 < len(pairs); i += 2 {
		for c := pairs[i]; c <= pairs[i+1]; c++ {
			s.add(c)
		}
	}
	return &s
}

// String renders the set compactly: EOF, ranges of printable bytes, \xNN.
func (s *byteSet) String() string {
	var parts []string
	if s.has(-1) {
		parts = append(parts, "EOF")
	}
	show := func(c int) string {
		switch {
		case c == '\n':
			return `\n`
		case c == '\r':
			return `\r`
		case c == '\t':
			return `\t`
		case c == ' ':
			return `SP`
		case c > 32 && c < 127:
			return string(rune(c))
		}
		return fmt.Sprintf(`\x%02x`, c)
	}
	for c := 0; c <= 255; c++ {
		if !s.has(c) {
			continue
		}
		e := c
		for e+1 <= 255 && s.has(e+1) {
			e++
		}
		if e > c+1 {
			parts = append(parts, show(c)+"-"+show(e))
		} else if e == c+1 {
			parts = append(parts, show(c), show(e))
		} else {
			parts = append(parts, show(c))
		}
		c = e
	}
	return "{" + strings.Join(parts, " ") + "}"
}

// readOutcome describes what happens after one read site, per byte value.
type readOutcome struct {
	Site     *ssa.Call
	Consumed byteSet // the byte stays consumed (no step-back before the next cursor event)
	Pushed   byteSet // a step-back follows: the byte was only inspected
	Unknown  byteSet // a predicate could not be evaluated: both continuations were explored
	// follow-up event per byte when consumed: the next cursor-relevant instruction reached
	Next map[int][]ssa.Instruction
}

// evalCond evaluates a boolean SSA value for read result v == c: 1 true, 0 false, -1 unknown.
func evalCond(cond ssa.Value, v ssa.Value, c int) int {
	return evalCondAliases(cond, map[ssa.Value]bool{v: true}, c)
}

// evalCondAliases: as evalCond, for a set of values known to hold the read result (the read itself and phis it flowed into).
func evalCondAliases(cond ssa.Value, vs map[ssa.Value]bool, c int) int {
	r, ok := foldValue(cond, vs, c, 0)
	if !ok || !r.isBool {
		return -1
	}
	if r.b {
		return 1
	}
	return 0
}

// foldValue folds an expression over the read result v (taken to be c), constants, conversions, arithmetic,
// comparisons and pure calls (purefn.go). Anything else is unknown.
func foldValue(e ssa.Value, v map[ssa.Value]bool, c int, depth int) (pval, bool) {
	if v[e] {
		return pval{i: int64(c)}, true
	}
	if depth > 8 {
		return pval{}, false
	}
	switch x := e.(type) {
	case *ssa.Global:
		return pval{tbl: x}, true // the address of a package-level table handed to a helper
	case *ssa.Const:
		if x.Value == nil {
			return pval{}, false
		}
		switch x.Value.Kind() {
		case constant.Bool:
			return pval{isBool: true, b: constant.BoolVal(x.Value)}, true
		case constant.Int:
			n, ok := constant.Int64Val(x.Value)
			return pval{i: n}, ok
		}
	case *ssa.Convert:
		in, ok := foldValue(x.X, v, c, depth+1)
		if !ok || in.isBool {
			return pval{}, false
		}
		if b, isB := x.Type().Underlying().(*types.Basic); !isB || b.Info()&types.IsInteger == 0 {
			return pval{}, false
		}
		return pval{i: truncInt(in.i, x.Type())}, true
	case *ssa.ChangeType:
		return foldValue(x.X, v, c, depth+1)
	case *ssa.Index:
		// constant table loaded as a whole and indexed
		if ld, ok := x.X.(*ssa.UnOp); ok && ld.Op == token.MUL {
			if g, ok := ld.X.(*ssa.Global); ok {
				return foldTable(g, x.Index, v, c, depth)
			}
		}
	case *ssa.UnOp:
		if x.Op == token.MUL {
			// element of a constant table: tbl[i]
			if ia, ok := x.X.(*ssa.IndexAddr); ok {
				if g, ok := ia.X.(*ssa.Global); ok {
					return foldTable(g, ia.Index, v, c, depth)
				}
			}
		}
		if x.Op == token.NOT {
			in, ok := foldValue(x.X, v, c, depth+1)
			if ok && in.isBool {
				return pval{isBool: true, b: !in.b}, true
			}
		}
	case *ssa.BinOp:
		a, ok1 := foldValue(x.X, v, c, depth+1)
		b, ok2 := foldValue(x.Y, v, c, depth+1)
		if ok1 && ok2 {
			return foldBinOp(x.Op, a, b, x.X.Type())
		}
	case *ssa.Call:
		var av []pval
		for _, a := range x.Call.Args {
			if pv, ok := foldValue(a, v, c, depth+1); ok {
				av = append(av, pv)
			}
		}
		if len(av) != len(x.Call.Args) {
			av = nil
		}
		return pureCall(&x.Call, av, func(a ssa.Value) (pval, bool) { return foldValue(a, v, c, depth+1) }, 0)
	}
	return pval{}, false
}

// analyseRead evaluates the continuation of read site n for every byte value. The read result may be kept in a variable
// that is a phi at a loop header (`c := next(); for pred(c) { c = next() }`): along each path the set of values holding
// the result of THIS read is tracked (the read itself, and phis it flows into on the edge taken).
func (a *analyzer) analyseRead(n *ssa.Call) *readOutcome {
	out := &readOutcome{Site: n, Next: map[int][]ssa.Instruction{}}
	type pos struct {
		b     *ssa.BasicBlock
		i     int
		alias string // canonical key of the alias set
	}
	aliasKey := func(m map[ssa.Value]bool) string {
		var ks []string
		for v := range m {
			ks = append(ks, v.Name())
		}
		sort.Strings(ks)
		return strings.Join(ks, ",")
	}
	for c := -1; c <= 255; c++ {
		seen := map[string]bool{}
		type item struct {
			p  pos
			vs map[ssa.Value]bool
		}
		start := map[ssa.Value]bool{n: true}
		work := []item{{pos{n.Block(), instrIndex(n) + 1, aliasKey(start)}, start}}
		follow := func(from, to *ssa.BasicBlock, vs map[ssa.Value]bool) item {
			nv := map[ssa.Value]bool{}
			for v := range vs {
				if ph, isPhi := v.(*ssa.Phi); isPhi && ph.Block() == to {
					continue // re-bound below
				}
				nv[v] = true
			}
			pi := -1
			for k, pb := range to.Preds {
				if pb == from {
					pi = k
				}
			}
			for _, in := range to.Instrs {
				ph, isPhi := in.(*ssa.Phi)
				if !isPhi {
					break
				}
				if pi >= 0 && vs[ph.Edges[pi]] {
					nv[ph] = true
				}
			}
			return item{pos{to, 0, aliasKey(nv)}, nv}
		}
		for len(work) > 0 {
			it := work[0]
			work = work[1:]
			p := it.p
			if p.i == 0 {
				k := fmt.Sprintf("%d|%s", p.b.Index, p.alias)
				if seen[k] {
					continue
				}
				seen[k] = true
			}
			ended := false
			for i := p.i; i < len(p.b.Instrs) && !ended; i++ {
				switch x := p.b.Instrs[i].(type) {
				case *ssa.Call:
					callee := x.Call.StaticCallee()
					switch {
					case callee == a.back:
						out.Pushed.add(c)
						ended = true
					case callee == a.next, a.isCursorMethod(callee):
						out.Consumed.add(c)
						out.Next[c] = append(out.Next[c], x)
						ended = true
					}
				case *ssa.Return:
					out.Consumed.add(c)
					out.Next[c] = append(out.Next[c], x)
					ended = true
				case *ssa.If:
					switch evalCondAliases(x.Cond, it.vs, c) {
					case 1:
						work = append(work, follow(p.b, p.b.Succs[0], it.vs))
					case 0:
						work = append(work, follow(p.b, p.b.Succs[1], it.vs))
					default:
						// a test on unrelated state: both continuations are possible for this byte; a test that involves
						// the byte but cannot be evaluated makes the classification of the byte unknown
						for v := range it.vs {
							if condMentions(x.Cond, v, 0) {
								out.Unknown.add(c)
							}
						}
						work = append(work, follow(p.b, p.b.Succs[0], it.vs), follow(p.b, p.b.Succs[1], it.vs))
					}
					ended = true
				case *ssa.Jump:
					work = append(work, follow(p.b, p.b.Succs[0], it.vs))
					ended = true
				}
			}
		}
	}
	return out
}

// readSites lists the calls of the read primitive in fn, in block order.
func (a *analyzer) readSites(fn *ssa.Function) []*ssa.Call {
	var out []*ssa.Call
	for _, b := range fn.Blocks {
		for _, in := range b.Instrs {
			if c, ok := in.(*ssa.Call); ok && c.Call.StaticCallee() == a.next {
				out = append(out, c)
			}
		}
	}
	return out
}

// selfLoopSet: bytes for which, after being consumed at site n, the next cursor event is n itself.
func (o *readOutcome) selfLoopSet() *byteSet {
	var s byteSet
	for c, evs := range o.Next {
		all := len(evs) > 0
		for _, e := range evs {
			if e != ssa.Instruction(o.Site) {
				all = false
			}
		}
		if all && o.Consumed.has(c) && !o.Pushed.has(c) {
			s.add(c)
		}
	}
	return &s
}

// nextSites: the distinct read sites other than n reached right after consuming a byte at n, with the bytes leading there.
func (o *readOutcome) nextSites(a *analyzer) map[*ssa.Call]*byteSet {
	out := map[*ssa.Call]*byteSet{}
	var cs []int
	for c := range o.Next {
		cs = append(cs, c)
	}
	sort.Ints(cs)
	for _, c := range cs {
		for _, e := range o.Next[c] {
			if call, ok := e.(*ssa.Call); ok && call != o.Site && call.Call.StaticCallee() == a.next {
				if out[call] == nil {
					out[call] = &byteSet{}
				}
				out[call].add(c)
			}
		}
	}
	return out
}

// TokenCharset: for a token reader (returns the input slice between entry and exit) the set of bytes accepted as first
// byte and as following bytes, from its read sites: first = consumed set of the first site, rest = self-loop set of the
// looping site.
type TokenCharset struct {
	First, Rest *byteSet
	MayBeEmpty  bool
}

func (a *analyzer) tokenCharset(fn *ssa.Function) (*TokenCharset, string) {
	sites := a.readSites(fn)
	if len(sites) == 0 {
		return nil, "no read site"
	}
	tc := &TokenCharset{}
	first := a.analyseRead(sites[0])
	if !first.Unknown.empty() {
		return nil, "first read's predicate could not be evaluated for " + first.Unknown.String()
	}
	self := first.selfLoopSet()
	if len(sites) == 1 {
		// one looping site: every byte of the token comes from it
		tc.First, tc.Rest, tc.MayBeEmpty = self, self, true
		return tc, ""
	}
	tc.First = &first.Consumed
	rest := a.analyseRead(sites[len(sites)-1])
	if !rest.Unknown.empty() {
		return nil, "loop read's predicate could not be evaluated"
	}
	tc.Rest = rest.selfLoopSet()
	tc.MayBeEmpty = false
	return tc, ""
}

// condMentions: the value v occurs among the operands of cond (through conversions, arithmetic, calls, indexing).
func condMentions(cond ssa.Value, v ssa.Value, depth int) bool {
	if cond == v {
		return true
	}
	if depth > 6 {
		return false
	}
	in, ok := cond.(ssa.Instruction)
	if !ok {
		return false
	}
	if _, isPhi := cond.(*ssa.Phi); isPhi {
		return false
	}
	for _, op := range in.Operands(nil) {
		if *op != nil && condMentions(*op, v, depth+1) {
			return true
		}
	}
	return false
}

// foldProg gives foldValue access to the program's constant tables (set by RunCursor).
var foldProg *Prog

// foldTable: g[idx] for a constant table g (Prog.ConstTable); an index outside the array is "unknown" (it would panic).
func foldTable(g *ssa.Global, idx ssa.Value, v map[ssa.Value]bool, c int, depth int) (pval, bool) {
	if foldProg == nil {
		return pval{}, false
	}
	i, ok := foldValue(idx, v, c, depth+1)
	if !ok || i.isBool {
		return pval{}, false
	}
	return tableElem(g, i.i)
}
