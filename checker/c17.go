package main

import (
	"fmt"
	"go/token"
	"go/types"
	"strings"

	"golang.org/x/tools/go/ssa"
)

func init() {
	register(&propDef{
		id: "C17", level: "other", perCfg: true,
		explain: "Necessary structural conditions of C17: template conformance of every context-aware I/O operation of the connection wrapper (found by role: methods of ctxio.Conn that start a helper goroutine), checked per operation (typestate on its CFG) and thereby across siblings. D1 arm: on every path from entry to the `go`, unconditionally, Set{Read|Write}Deadline(d) with d the deadline of the operation's own context, the kind matching the direction of the helper's I/O (an unconditional call also clears a deadline left by an earlier operation); the same holds for every path of the operation that performs I/O on the wrapped connection outside the helper (a path that returns without touching the connection needs no deadline). D2 cancel arm (the select case receiving from ctx.Done()): on every path first a deadline in the past on the matching side (a package variable written only by init with time.Unix of a small constant), then the join with the helper, then the disarm Set…Deadline(time.Time{}), and the operation returns ctx.Err(). D3 the result channel is buffered. D4 context propagation: every call in package varlink to a connection-wrapper operation passes a context rooted in the caller's own context parameter (possibly through context.With*); no context.Background()/TODO() in non-test code. D5 the per-connection context of the service is derived with cancel and the cancel is deferred before the read loop. D6 transports honour deadlines: for every repo type handed to the wrapper's constructor, its SetReadDeadline/SetWriteDeadline return nil only after delegating to the wrapped pipe end, or on the failing branch of a type test that - by the dynamic types stored at every construction site, resolved through os/exec's source - cannot fail. Functions are analysed in their inlined views (DESIGN 9.2): repository helpers are part of the function that calls them, so it does not matter whether a step is written out or factored into a helper. That includes helpers that take the I/O or the join as a function value. D4 also: a function value that takes a context of its own (the receive function Send hands out) performs its I/O under that context, not one captured from the call that created it. D7 an I/O operation never closes the connection it was given: after a cancelled or expired call the same connection must still be usable with a live context. D8 (= C10.S1,S2). D9 error discipline of the wrapper operations (engine errdisc): a deadline-setter error is returned, never dropped; success only with error known nil.",
		notDec:  "Promptness in time; kernel behaviour of deadlines; bytes consumed by a cancelled delimiter read (a cancelled operation may have taken part of a frame out of the stream).",
		trusted: []string{"net.Conn deadlines: a deadline in the past makes pending and future I/O fail with a timeout; the zero time clears it", "*os.File pipes support deadlines on this platform (os package contract)"},
		run:     runC17,
	})
}

// ctxOpTemplateRules: the template rules of the context-aware I/O operations (arm D1, cancel arm D2, buffered result
// channel D3), reported under the rule ids given by id. Other properties whose statement depends on these operations
// behaving (replies are written, frames are read, raw reads continue the stream, serving drains on cancellation)
// re-evaluate them under a rule id of their own; dir restricts to the read or the write operations ("" = all).
func ctxOpTemplateRules(r *Run, p *Prog, T *Terms, id func(string) string, dir string) int {
	ops := DiscoverCtxOps(p, T, pkgCtxio)
	if len(ops) == 0 {
		r.Unresolved(id("D1"), "context-aware I/O operations (methods of the connection wrapper that start a helper goroutine)")
		return 0
	}
	// the "past" variable(s): package variables of ctxio written only in init with time.Unix(small const, _)
	past := map[string]bool{}
	if init := p.SPkgs[pkgCtxio].Func("init"); init != nil {
		for _, b := range init.Blocks {
			for _, in := range b.Instrs {
				st, ok := in.(*ssa.Store)
				if !ok {
					continue
				}
				g, ok := st.Addr.(*ssa.Global)
				if !ok {
					continue
				}
				if c, ok := st.Val.(*ssa.Call); ok && calleeName(&c.Call) == "time.Unix" {
					if k, ok := c.Call.Args[0].(*ssa.Const); ok && k.Int64() >= 0 && k.Int64() < 1000000000 {
						past["*(global:"+g.Pkg.Pkg.Name()+"."+g.Name()+")"] = true
						past[strip(T.T(c))] = true
					}
				}
			}
		}
	}
	nops := 0
	for _, op := range ops {
		if dir != "" && op.IODir != "" && op.IODir != dir {
			continue
		}
		nops++
		fn := shortName(op.Fn)
		if len(op.Problems) > 0 || op.Select == nil || op.DoneIdx < 0 || op.ResIdx < 0 || op.IOCall == nil {
			r.Ob(id("D1"), fn, "operation matches the helper-goroutine template", op.Go.Pos(), false,
				fmt.Sprintf("shape not recognised: problems=%v select=%v ctx.Done case=%d result case=%d helper I/O found=%v", op.Problems, op.Select != nil, op.DoneIdx, op.ResIdx, op.IOCall != nil))
			continue
		}
		var ctxP string
		for _, prm := range op.Fn.Params {
			if isNamed(prm.Type(), "context", "Context") {
				ctxP = "param:" + prm.Name()
			}
		}
		dlT := "ext(call:invoke:Deadline(" + ctxP + "),0)"
		isSetter := func(in ssa.Instruction, arg func(string) bool) bool {
			c, ok := in.(*ssa.Call)
			if !ok {
				return false
			}
			k := deadlineSetterKind(&c.Call)
			if k == "" || !(k == op.IODir || k == "both") {
				return false
			}
			a := c.Call.Args
			return arg(strip(T.T(a[len(a)-1])))
		}
		// the context selected on is the operation's own
		doneOK := false
		if c, ok := op.Select.States[op.DoneIdx].Chan.(*ssa.Call); ok {
			doneOK = strip(T.T(c.Call.Value)) == ctxP
		}
		r.Ob(id("D2"), fn, "the select waits on the operation's own ctx.Done()", op.Select.Pos(), doneOK && ctxP != "", "the cancellation case does not receive from the Done channel of the operation's context parameter")
		// ---- D1
		r.Guard(id("D1"), func() {
			ok, w := everyPathPasses(op.Fn, nil, func(in ssa.Instruction) bool { return in == ssa.Instruction(op.Go) },
				func(in ssa.Instruction) bool { return isSetter(in, func(a string) bool { return a == dlT }) })
			r.Ob(id("D1"), fn, "before the helper starts, the "+op.IODir+" deadline is set to the context's deadline on every path (unconditionally)", op.Go.Pos(), ok,
				"the helper can be started without Set"+strings.Title(op.IODir)+"Deadline(ctx deadline): a context deadline is not honoured, and a deadline armed by an earlier operation stays in force for this one", witnessPos(p, w)...)
			// no way through the operation avoids the arming call (e.g. a fast path doing the I/O directly)
			// (a path that returns without touching the wrapped connection or its reader needs no deadline)
			ok2, w2 := everyPathPasses(op.Fn, nil, func(in ssa.Instruction) bool { return wrapperIO(T, op.Fn, in) },
				func(in ssa.Instruction) bool { return isSetter(in, func(a string) bool { return a == dlT }) })
			r.Ob(id("D1"), fn, "every path to I/O on the wrapped connection first sets the "+op.IODir+" deadline to the context's deadline", op.Fn.Pos(), ok2,
				"the operation can perform I/O on the connection (outside the helper) without calling Set"+strings.Title(op.IODir)+"Deadline(ctx deadline): it is not governed by the context, and a deadline left armed by an earlier operation with a deadline context is then still in force and makes this one fail with a timeout although its own context is live", witnessPos(p, w2)...)
			// nothing in the operation itself performs blocking I/O on the wrapped connection: only the helper goroutine
			// does, because only there can a cancellation without deadline interrupt it (the operation sets a deadline
			// in the past and waits for the helper)
			for _, b := range op.Fn.Blocks {
				for _, in := range b.Instrs {
					if wrapperIO(T, op.Fn, in) {
						r.Ob(id("D1"), fn, "no I/O on the wrapped connection outside the helper goroutine", in.Pos(), false,
							"the operation performs I/O on the connection in its own goroutine: a cancelled context without deadline cannot interrupt it, so the operation (and whoever waits for it, e.g. a draining service) hangs until the peer acts")
					}
				}
			}
			// no deadline setter of the wrong kind
			for _, b := range op.Fn.Blocks {
				for _, in := range b.Instrs {
					if c, ok := in.(*ssa.Call); ok {
						if k := deadlineSetterKind(&c.Call); k != "" && k != op.IODir && k != "both" {
							r.Ob(id("D1"), fn, "deadline setters match the direction of the I/O ("+op.IODir+")", c.Pos(), false, "the operation performs a "+op.IODir+" but sets the "+k+" deadline: cancellation cannot unblock it")
						}
					}
				}
			}
			// a failing setter ends the operation before the helper starts
			for _, b := range op.Fn.Blocks {
				if c, ok := deadlineSetterErrEdge(b); ok {
					if reach, _ := reachInstr(op.Fn, nil, func(in ssa.Instruction) bool { return in == ssa.Instruction(c) }, func(in ssa.Instruction) bool { return in == ssa.Instruction(op.Go) }, nil); reach {
						bad, w2 := reachFromBlock(op.Fn, b.Succs[0], func(in ssa.Instruction) bool { return in == ssa.Instruction(op.Go) }, nil)
						r.Ob(id("D1"), fn, "a failing deadline setter returns before the helper is started", c.Pos(), !bad, "", witnessPos(p, w2)...)
					}
				}
			}
		})
		// ---- D2
		r.Guard(id("D2"), func() {
			var doneBlock *ssa.BasicBlock
			for _, b := range op.Fn.Blocks {
				if k, ok := selectIndexEdge(b, op.Select); ok && k == op.DoneIdx {
					doneBlock = b.Succs[0]
				}
			}
			if doneBlock == nil {
				r.Ob(id("D2"), fn, "cancel arm found", op.Select.Pos(), false, "no branch on `select index == ctx.Done() case`")
				return
			}
			isJoin := func(in ssa.Instruction) bool { return op.isJoinRecv(T, in) }
			isPast := func(in ssa.Instruction) bool { return isSetter(in, func(a string) bool { return past[a] }) }
			isZero := func(in ssa.Instruction) bool {
				return isSetter(in, func(a string) bool {
					return a == "const:zero" || a == "nil" || strings.HasPrefix(a, "const:time.Time{}") || a == "const:{}"
				})
			}
			errEdge := func(a, b *ssa.BasicBlock) bool {
				_, ok := deadlineSetterErrEdge(a)
				return ok && b == a.Succs[0]
			}
			// (a) past deadline before the join, on every path
			reach, w := reachFromBlockAvoid(op.Fn, doneBlock, isJoin, isPast, nil)
			r.Ob(id("D2"), fn, "on cancellation a deadline in the past is set before waiting for the helper", p.InstrPos(doneBlock.Instrs[0]), !reach,
				"the cancel arm waits for the helper without first unblocking its pending I/O: the operation hangs until the peer acts", witnessPos(p, w)...)
			// (b) the join happens on every non-error path to a return
			reach2, w2 := reachFromBlockAvoid(op.Fn, doneBlock, isReturn, isJoin, errEdge)
			r.Ob(id("D2"), fn, "on cancellation the helper is joined before returning", p.InstrPos(doneBlock.Instrs[0]), !reach2,
				"the cancel arm can return while the helper goroutine is still running", witnessPos(p, w2)...)
			// (c) disarm after the join on every non-error path to a return
			var join ssa.Instruction
			for _, b := range op.Fn.Blocks {
				for _, in := range b.Instrs {
					if isJoin(in) {
						join = in
					}
				}
			}
			if join != nil {
				reach3, w3 := reachInstr(op.Fn, join, isReturn, isZero, errEdge)
				r.Ob(id("D2"), fn, "after the join the deadline is cleared (zero time) before returning", join.Pos(), !reach3,
					"the operation returns with the past deadline still armed: every later operation on this connection fails with a timeout", witnessPos(p, w3)...)
				// (d) the cancel arm returns ctx.Err()
				okErr := true
				n := 0
				for _, rv := range returnedValues(op.Fn, op.Fn.Signature.Results().Len()-1) {
					if re, _ := reachInstr(op.Fn, join, func(i ssa.Instruction) bool { return i == ssa.Instruction(rv.Ret) }, nil, errEdge); !re {
						continue
					}
					n++
					if strip(T.T(rv.Val)) != "call:invoke:Err("+ctxP+")" {
						okErr = false
					}
				}
				r.Ob(id("D2"), fn, "a cancelled operation reports ctx.Err()", join.Pos(), okErr && n > 0, "the cancel arm does not return the context's error")
			} else {
				r.Ob(id("D2"), fn, "the cancel arm joins the helper", p.InstrPos(doneBlock.Instrs[0]), false, "no receive from the result channel on the cancel arm")
			}
			// the past variable is only written by init
			r.Ob(id("D2"), fn, "the past deadline is a package variable initialised to a fixed time in the past", op.Fn.Pos(), len(past) > 0, "no package variable initialised with time.Unix(<small constant>, _) found")
		})
		// ---- D3
		capOK := false
		if c, ok := op.Chan.Size.(*ssa.Const); ok && c.Int64() >= 1 {
			capOK = true
		}
		if op.closes() {
			capOK = true // completion is signalled by closing the channel, which never blocks
		}
		r.Ob(id("D3"), fn, "result channel has capacity >= 1", op.Chan.Pos(), capOK, "with an unbuffered channel the helper leaks on the paths that return without receiving")
	}
	return nops
}

func runC17(r *Run, p *Prog) {
	// D8: the service's per-connection read returns once its context is done - and the handler ends then: a failed read
	// is never retried (a "transient error" retry spins on the expired context for ever)
	siblingRules(r, p, "C10", []string{"S1", "S2"}, "D8")
	ro := DiscoverRoles(p)
	T, cg := ro.T, ro.CG
	r.Guard("D1", func() { ctxOpTemplateRules(r, p, T, func(x string) string { return x }, "") })
	r.Floor("D1", 3)
	r.Floor("D2", 12)
	// ---- D4
	r.Guard("D4", func() {
		n := 0
		for _, f := range p.FuncsOf(pkgVarlink) {
			for _, cs := range callsIn(f, false) {
				if !(isProtoWrite(cs) || isProtoReadBytes(cs) || isProtoRead(cs)) {
					continue
				}
				n++
				var ctxArg ssa.Value
				for _, a := range cs.Common.Args {
					if isNamed(a.Type(), "context", "Context") {
						ctxArg = a
					}
				}
				ok, why := ctxRooted(T, f, ctxArg)
				// a function value that takes a context of its own (the receive function Send hands out) must use that
				// one, not the context of the call that created it
				if ok {
					own := false
					for _, prm := range f.Params {
						if isNamed(prm.Type(), "context", "Context") {
							own = true
						}
					}
					if own && ctxThroughFreeVar(T, ctxArg) {
						ok, why = false, "the function has a context parameter of its own but performs the I/O under a context captured from the enclosing call: cancelling the context passed to this function does not unblock it"
					}
				}
				r.Ob("D4", shortName(f), "I/O call passes the caller's context ("+calleeName(cs.Common)+")", cs.Instr.Pos(), ok, why)
			}
		}
		for _, pk := range []string{pkgVarlink, pkgCtxio} {
			for _, f := range p.FuncsOf(pk) {
				for _, cs := range callsNamed(f, false, "context.Background", "context.TODO") {
					r.Ob("D4", shortName(f), "no context.Background()/TODO() in library code", cs.Instr.Pos(), false, "an I/O path is detached from the caller's context: cancellation cannot reach it")
				}
			}
		}
		r.Stat("D4_io_calls", n)
		r.Floor("D4", 3)
	})
	// ---- D7: an operation that fails (its context expired, the peer reset) leaves the connection open: the functions
	// of package varlink that perform context-aware I/O on a connection wrapper never close it - closing is the
	// caller's decision (Connection.Close, the end of the handler); "fail fast" closes make the connection unusable
	// for the next call with a live context
	r.Guard("D7", func() {
		n := 0
		for _, f := range p.FuncsOf(pkgVarlink) {
			doesIO := false
			for _, cs := range callsIn(f, false) {
				if isProtoWrite(cs) || isProtoReadBytes(cs) || isProtoRead(cs) {
					doesIO = true
				}
			}
			if !doesIO {
				continue
			}
			isLoop := false
			for _, l := range ro.ConnLoop {
				if l == f || origFn(l) == origFn(f) {
					isLoop = true
				}
			}
			if isLoop {
				continue // the connection handler owns the accepted connection and closes it at its end (C10.S3)
			}
			n++
			var bad ssa.Instruction
			for _, cs := range callsIn(f, false) {
				nm := calleeName(cs.Common)
				if cs.Common.IsInvoke() && cs.Common.Method.Name() == "Close" || strings.HasSuffix(nm, "ctxio.Conn.Close") || nm == "varlink.Connection.Close" {
					bad = cs.Instr
				}
			}
			pos := f.Pos()
			if bad != nil {
				pos = bad.Pos()
			}
			r.Ob("D7", shortName(f), "the operation does not close the connection it was given", pos, bad == nil,
				"an I/O operation closes the connection (on its error path): after a cancelled or expired call the same connection can no longer be used with a live context")
		}
		r.Floor("D7", 3)
	})
	// ---- D9: error discipline inside the context-aware wrapper (errdisc.go): a deadline that could not be set, a failed
	// read or write is never reported as success
	r.Guard("D9", func() {
		errorDiscipline(r, p, T, "D9", p.FuncsOf(pkgCtxio))
		r.Floor("D9", 5)
	})
	// ---- D5
	r.Guard("D5", func() {
		for _, l := range ro.ConnLoop {
			var rb *ssa.Call
			for _, cs := range callsIn(l, false) {
				if isProtoReadBytes(cs) {
					rb, _ = cs.Instr.(*ssa.Call)
				}
			}
			if rb == nil {
				r.Unresolved("D5", shortName(l)+": frame read in the connection loop")
				continue
			}
			ok, why := connCtxCancelOnExit(p, T, cg, l, rb)
			r.Ob("D5", shortName(l), "per-connection context derived with cancel, cancel deferred before the read loop", l.Pos(), ok, "handler exit does not cancel the per-connection context: "+why)
		}
	})
	// ---- D6
	r.Guard("D6", func() {
		ctor := fnSet(ro.ConnCtor)
		seen := map[string]bool{}
		for _, f := range p.FuncsOf(pkgVarlink) {
			for _, cs := range callsIn(f, false) {
				t := cs.Common.StaticCallee()
				if t == nil || !ctor[t] {
					continue
				}
				arg := cs.Common.Args[0]
				dyn := dynType(arg)
				if dyn == nil {
					continue // a net.Conn from the net package (dial / accept)
				}
				named, _ := dyn.(*types.Named)
				if pt, ok := dyn.(*types.Pointer); ok {
					named, _ = pt.Elem().(*types.Named)
				}
				if named == nil || named.Obj().Pkg() == nil || named.Obj().Pkg().Path() != pkgVarlink || seen[named.Obj().Name()] {
					continue
				}
				seen[named.Obj().Name()] = true
				for _, m := range []struct{ name, dir string }{{"SetReadDeadline", "read"}, {"SetWriteDeadline", "write"}} {
					mf := p.SSA.LookupMethod(dyn, p.Pkgs[pkgVarlink].Types, m.name)
					if mf == nil {
						r.Ob("D6", named.Obj().Name()+"."+m.name, "transport implements "+m.name, named.Obj().Pos(), false, "missing")
						continue
					}
					ok, why := deadlineDelegates(p, T, mf, named, m.name)
					if ok {
						// ... and to the pipe end that the same direction's I/O uses, with the setter of that direction
						ioName := map[string]string{"read": "Read", "write": "Write"}[m.dir]
						iof := p.SSA.LookupMethod(dyn, p.Pkgs[pkgVarlink].Types, ioName)
						ioMember := ""
						if iof != nil {
							for _, cs2 := range callsIn(iof, false) {
								if cn := cs2.Common; (cn.IsInvoke() && cn.Method.Name() == ioName) || (cn.StaticCallee() != nil && cn.StaticCallee().Name() == ioName) {
									recv := cn.Value
									if !cn.IsInvoke() && len(cn.Args) > 0 {
										recv = cn.Args[0]
									}
									if mem := memberBehind(recv); mem != "" {
										ioMember = mem
									}
								}
							}
						}
						if ioMember == "" {
							r.Ob("D6", named.Obj().Name()+"."+m.name, "the member the transport's "+ioName+" uses is identified", mf.Pos(), false, "cannot tell which pipe end "+ioName+" operates on")
						} else {
							for _, cs2 := range callsIn(mf, false) {
								k := deadlineSetterKind(cs2.Common)
								if k == "" {
									continue
								}
								recv := cs2.Common.Value
								if !cs2.Common.IsInvoke() && len(cs2.Common.Args) > 0 {
									recv = cs2.Common.Args[0]
								}
								mem := memberBehind(recv)
								if mem == "" {
									continue // a call on the transport itself (another of its own setters): judged there
								}
								okEnd := mem == ioMember && (k == m.dir || k == "both")
								r.Ob("D6", named.Obj().Name()+"."+m.name, "the "+m.dir+" deadline is armed on the pipe end "+ioName+" uses ("+ioMember+"), with the "+m.dir+" setter", cs2.Instr.Pos(), okEnd,
									fmt.Sprintf("%s arms the %s deadline of member %s, but %s operates on member %s: the deadline (and with it cancellation) has no effect on a pending %s of this transport, whose helper then consumes and discards the next message", m.name, k, mem, ioName, ioMember, m.dir))
							}
						}
					}
					r.Ob("D6", named.Obj().Name()+"."+m.name, "the transport's "+m.name+" takes effect: nil is returned only after delegating to the wrapped pipe end", mf.Pos(), ok, why)
				}
			}
		}
		if len(seen) == 0 {
			r.Unresolved("D6", "repo transport types handed to the connection wrapper's constructor")
		}
		// the pipe ends must stay in non-blocking mode: (*os.File).Fd / SyscallConn on them switches the descriptor to
		// blocking mode, after which deadlines are accepted but no longer interrupt a blocked read or write
		tainted := pipeTaint(p)
		nfd := 0
		for _, f := range p.FuncsOf(pkgVarlink) {
			for _, cs := range callsIn(f, false) {
				name := calleeName(cs.Common)
				var recv ssa.Value
				switch {
				case name == "os.File.Fd" || name == "os.File.SyscallConn":
					recv = cs.Common.Args[0]
				case cs.Common.IsInvoke() && (cs.Common.Method.Name() == "Fd" || cs.Common.Method.Name() == "SyscallConn"):
					recv = cs.Common.Value
					name = "(interface)." + cs.Common.Method.Name()
				default:
					continue
				}
				nfd++
				r.Ob("D6", shortName(f), "no "+name+" on a bridge pipe end", cs.Instr.Pos(), !tainted[recv],
					name+" is called on a pipe end of the bridge transport: this puts the descriptor into blocking mode, so SetReadDeadline/SetWriteDeadline still return nil but no longer unblock pending I/O - a cancelled call on a bridge hangs")
			}
		}
		r.Stat("D6_fd_calls", nfd)
	})
	_ = cg
	_ = token.NoPos
}

func isProtoRead(cs CallSite) bool {
	c := cs.Common
	if c.IsInvoke() {
		return ctxIOInvoke(c, "Read")
	}
	if f := c.StaticCallee(); f != nil && f.Name() == "Read" && f.Signature.Recv() != nil {
		return isNamed(f.Signature.Recv().Type(), pkgCtxio, "Conn")
	}
	return false
}

// ctxRooted: v is the enclosing function's (or, for a closure, its own or an enclosing function's) context
// parameter, or derived from one by context.With*.
func ctxRooted(T *Terms, f *ssa.Function, v ssa.Value) (bool, string) {
	if v == nil {
		return false, "no context argument"
	}
	for i := 0; i < 6; i++ {
		switch x := v.(type) {
		case *ssa.Parameter:
			if isNamed(x.Type(), "context", "Context") {
				return true, "context parameter " + x.Name()
			}
			return false, "not a context parameter"
		case *ssa.Extract:
			if c, ok := x.Tuple.(*ssa.Call); ok && strings.HasPrefix(calleeName(&c.Call), "context.With") {
				v = c.Call.Args[0]
				continue
			}
			return false, "context is " + strip(T.T(v))
		case *ssa.FreeVar:
			v = T.resolveFree(x)
			if _, still := v.(*ssa.FreeVar); still {
				return false, "captured context could not be resolved"
			}
		case *ssa.UnOp:
			if a, ok := T.resolveFree(x.X).(*ssa.Alloc); ok {
				if val, ok := singleStore(a); ok {
					v = val
					continue
				}
			}
			return false, "context is " + strip(T.T(v))
		case *ssa.Call:
			if strings.HasPrefix(calleeName(&x.Call), "context.With") {
				v = x.Call.Args[0]
				continue
			}
			return false, "context is " + strip(T.T(v)) + ", not the caller's"
		default:
			return false, "context is " + strip(T.T(v)) + ", not the caller's"
		}
	}
	return false, "context derivation too deep"
}

// deadlineDelegates: every nil return of the transport's deadline method follows a delegating call, or lies on the
// failing branch of a comma-ok assertion that cannot fail for the dynamic types stored at the construction sites.
// memberBehind names the struct member a value was loaded from, looking through type assertions and interface
// conversions ("" if it is not a member load).
func memberBehind(v ssa.Value) string {
	for i := 0; i < 8; i++ {
		switch x := v.(type) {
		case *ssa.Extract:
			v = x.Tuple
		case *ssa.TypeAssert:
			v = x.X
		case *ssa.ChangeInterface:
			v = x.X
		case *ssa.MakeInterface:
			v = x.X
		case *ssa.ChangeType:
			v = x.X
		case *ssa.Field:
			return fieldName(x.X, x.Field)
		case *ssa.UnOp:
			if fa, ok := x.X.(*ssa.FieldAddr); ok {
				return fieldName(fa.X, fa.Field)
			}
			return ""
		default:
			return ""
		}
	}
	return ""
}

func deadlineDelegates(p *Prog, T *Terms, mf *ssa.Function, named *types.Named, mname string) (bool, string) {
	isDelegate := func(in ssa.Instruction) bool {
		c, ok := in.(*ssa.Call)
		return ok && deadlineSetterKind(&c.Call) != "" && c.Parent() == mf
	}
	var reason []string
	ok := true
	for _, rv := range returnedValues(mf, 0) {
		if T.T(rv.Val) != "nil" {
			// returns the delegate's result?
			if c, isC := rv.Val.(*ssa.Call); isC && isDelegate(c) {
				continue
			}
			continue
		}
		// nil return: is there a path from entry to it avoiding a delegate call?
		target := rv.Ret
		reach, _ := reachInstr(mf, nil, func(i ssa.Instruction) bool { return i == ssa.Instruction(target) }, isDelegate, func(a, b *ssa.BasicBlock) bool {
			// failing branch of a comma-ok assertion that cannot fail
			if len(a.Instrs) == 0 {
				return false
			}
			iff, isIf := a.Instrs[len(a.Instrs)-1].(*ssa.If)
			if !isIf || b != a.Succs[1] {
				return false
			}
			ex, isEx := iff.Cond.(*ssa.Extract)
			if !isEx || ex.Index != 1 {
				return false
			}
			ta, isTA := ex.Tuple.(*ssa.TypeAssert)
			if !isTA || !ta.CommaOk {
				return false
			}
			iface, isIface := ta.AssertedType.Underlying().(*types.Interface)
			if !isIface {
				return false
			}
			// which member is asserted
			ld, isLd := ta.X.(*ssa.UnOp)
			if !isLd {
				return false
			}
			fa, isFa := ld.X.(*ssa.FieldAddr)
			if !isFa {
				return false
			}
			fld := fieldName(fa.X, fa.Field)
			dyns, why := constructionDynTypes(p, T, named, fld)
			if len(dyns) == 0 {
				reason = append(reason, "member "+fld+": "+why)
				return false
			}
			for _, d := range dyns {
				if !types.Implements(d, iface) {
					reason = append(reason, fmt.Sprintf("member %s can hold a %s, which has no %s: the type test fails silently and the deadline is never armed on this transport", fld, typeStr(d), mname))
					return false
				}
			}
			reason = append(reason, fmt.Sprintf("member %s holds %v at every construction site, all of which implement the tested interface", fld, typeStrs(dyns)))
			return true
		})
		if reach {
			ok = false
			if len(reason) == 0 {
				reason = append(reason, "returns nil without delegating: cancellation and deadlines have no effect on this transport")
			}
		}
	}
	return ok, strings.Join(uniq(reason), "; ")
}

func typeStrs(ts []types.Type) []string {
	var out []string
	for _, t := range ts {
		out = append(out, typeStr(t))
	}
	return out
}

// constructionDynTypes: the dynamic types stored into member fld of named at every composite-literal site in the repo;
// results of library calls are resolved by looking at the MakeInterface operands of the callee's returns.
func constructionDynTypes(p *Prog, T *Terms, named *types.Named, fld string) ([]types.Type, string) {
	var out []types.Type
	sites := 0
	for _, f := range p.Funcs {
		for _, b := range f.Blocks {
			for _, in := range b.Instrs {
				a, ok := in.(*ssa.Alloc)
				if !ok {
					continue
				}
				if pt, ok := a.Type().(*types.Pointer); !ok || !types.Identical(pt.Elem(), named) {
					continue
				}
				for _, v := range fieldStores(a)[fld] {
					sites++
					ds := dynTypesOf(p, v, 0)
					if ds == nil {
						return nil, "value stored at " + p.Pos(a.Pos()) + " (" + strip(T.T(v)) + ") has no statically known dynamic type"
					}
					out = append(out, ds...)
				}
			}
		}
	}
	if sites == 0 {
		return nil, "no construction site found"
	}
	return out, ""
}

func dynTypesOf(p *Prog, v ssa.Value, depth int) []types.Type {
	if depth > 3 {
		return nil
	}
	if d := dynType(v); d != nil {
		return []types.Type{d}
	}
	switch x := v.(type) {
	case *ssa.Extract:
		if c, ok := x.Tuple.(*ssa.Call); ok {
			if t := c.Call.StaticCallee(); t != nil && t.Blocks != nil {
				var out []types.Type
				for _, rv := range returnedValues(t, x.Index) {
					if k, ok := rv.Val.(*ssa.Const); ok && k.IsNil() {
						continue
					}
					ds := dynTypesOf(p, rv.Val, depth+1)
					if ds == nil {
						return nil
					}
					out = append(out, ds...)
				}
				return out
			}
		}
	case *ssa.Call:
		if t := x.Call.StaticCallee(); t != nil && t.Blocks != nil {
			var out []types.Type
			for _, rv := range returnedValues(t, 0) {
				ds := dynTypesOf(p, rv.Val, depth+1)
				if ds == nil {
					return nil
				}
				out = append(out, ds...)
			}
			return out
		}
	case *ssa.Phi:
		var out []types.Type
		for _, e := range x.Edges {
			ds := dynTypesOf(p, e, depth+1)
			if ds == nil {
				return nil
			}
			out = append(out, ds...)
		}
		return out
	}
	return nil
}

// pipeTaint: SSA values of package varlink that may be one of the bridge's pipe ends (results of exec.Cmd.StdinPipe /
// StdoutPipe), propagated through interface conversions, assertions, phis, struct members of repo literals and
// parameters of repo functions.
func pipeTaint(p *Prog) map[ssa.Value]bool {
	t := map[ssa.Value]bool{}
	fns := p.FuncsOf(pkgVarlink)
	taintedField := map[string]bool{}
	changed := true
	mark := func(v ssa.Value) {
		if v != nil && !t[v] {
			t[v] = true
			changed = true
		}
	}
	for round := 0; changed && round < 20; round++ {
		changed = false
		for _, f := range fns {
			for _, b := range f.Blocks {
				for _, in := range b.Instrs {
					switch x := in.(type) {
					case *ssa.Extract:
						if c, ok := x.Tuple.(*ssa.Call); ok && x.Index == 0 {
							n := calleeName(&c.Call)
							if n == "exec.Cmd.StdinPipe" || n == "exec.Cmd.StdoutPipe" || n == "exec.Cmd.StderrPipe" {
								mark(x)
							}
						}
						if t[x.Tuple] {
							mark(x)
						}
					case *ssa.TypeAssert:
						if t[x.X] {
							mark(x)
						}
					case *ssa.ChangeInterface:
						if t[x.X] {
							mark(x)
						}
					case *ssa.MakeInterface:
						if t[x.X] {
							mark(x)
						}
					case *ssa.Phi:
						for _, e := range x.Edges {
							if t[e] {
								mark(x)
							}
						}
					case *ssa.Store:
						if t[x.Val] {
							if fa, ok := x.Addr.(*ssa.FieldAddr); ok {
								k := fieldName(fa.X, fa.Field)
								if !taintedField[k] {
									taintedField[k] = true
									changed = true
								}
							}
						}
					case *ssa.UnOp:
						if fa, ok := x.X.(*ssa.FieldAddr); ok && taintedField[fieldName(fa.X, fa.Field)] {
							mark(x)
						}
					case *ssa.Field:
						if taintedField[fieldName(x.X, x.Field)] {
							mark(x)
						}
					case ssa.CallInstruction:
						if callee := staticTarget(x.Common()); callee != nil && p.InRepo(callee) {
							off := 0
							for i, a := range x.Common().Args {
								if t[a] && i+off < len(callee.Params) {
									mark(callee.Params[i+off])
								}
							}
						}
					}
				}
			}
		}
	}
	return t
}

// connCtxCancelOnExit: the context under which the connection loop reads frames is derived with a cancel function that is
// deferred - in the loop function itself or, when the context is handed down as a parameter, in its caller(s) before
// the call. Returns (ok, derived-context-known, explanation).
func connCtxCancelOnExit(p *Prog, T *Terms, cg *CallGraph, loopFn *ssa.Function, rb *ssa.Call) (bool, string) {
	var ctxArg ssa.Value
	for _, a := range rb.Call.Args {
		if isNamed(a.Type(), "context", "Context") {
			ctxArg = a
		}
	}
	if ctxArg == nil {
		return false, "the frame read has no context argument"
	}
	var check func(f *ssa.Function, v ssa.Value, before ssa.Instruction, depth int) (bool, string)
	check = func(f *ssa.Function, v ssa.Value, before ssa.Instruction, depth int) (bool, string) {
		if depth > 3 {
			return false, "context derivation too deep"
		}
		// see through spills
		for i := 0; i < 4; i++ {
			if u, ok := v.(*ssa.UnOp); ok {
				if a, ok := T.resolveFree(u.X).(*ssa.Alloc); ok {
					if val, ok := singleStore(a); ok {
						v = val
						continue
					}
				}
			}
			break
		}
		switch x := v.(type) {
		case *ssa.Extract:
			c, ok := x.Tuple.(*ssa.Call)
			if !ok || !strings.HasPrefix(calleeName(&c.Call), "context.With") || x.Index != 0 {
				return false, "the read context is " + strip(T.T(v))
			}
			// its cancel (result #1) is deferred on every path to `before`
			for _, b := range f.Blocks {
				for _, in := range b.Instrs {
					d, ok := in.(*ssa.Defer)
					if !ok {
						continue
					}
					if ex, ok := d.Call.Value.(*ssa.Extract); ok && ex.Tuple == x.Tuple && ex.Index == 1 {
						if okp, _ := everyPathPasses(f, nil, func(i ssa.Instruction) bool { return i == before }, func(i ssa.Instruction) bool { return i == ssa.Instruction(d) }); okp {
							return true, "derived with " + calleeName(&c.Call) + " in " + shortName(f) + ", cancel deferred"
						}
					}
				}
			}
			// cancelling a parent cancels the child: the context this one is derived from may be the one cancelled on exit
			if len(c.Call.Args) > 0 {
				if ok2, w := check(f, c.Call.Args[0], before, depth+1); ok2 {
					return true, w + " (parent of the " + calleeName(&c.Call) + " context used for the read)"
				}
			}
			return false, "the cancel function of the derived context is not deferred before the connection is served"
		case *ssa.Parameter:
			idx := -1
			for i, q := range f.Params {
				if q == x {
					idx = i
				}
			}
			sites := cg.Callers[f]
			if len(sites) == 0 || idx < 0 {
				return false, "the read context is the parameter " + x.Name() + " of " + shortName(f) + " (no caller derives a cancellable context)"
			}
			why := ""
			for _, cs := range sites {
				if _, isGo := cs.Instr.(*ssa.Go); isGo {
					return false, "the read context is the context the handler goroutine was started with: nothing cancels it when the connection ends"
				}
				args := cs.Common.Args
				if idx >= len(args) {
					return false, "call shape not understood"
				}
				ok, w := check(cs.Fn, args[idx], cs.Instr, depth+1)
				if !ok {
					return false, w
				}
				why = w
			}
			return true, why
		}
		return false, "the read context is " + strip(T.T(v))
	}
	return check(loopFn, ctxArg, rb, 0)
}

// wrapperIO: in is a call, in the operation itself (not in its helper), of a method of a member of the wrapper (the
// connection or its buffered reader) that can touch the socket. Accessors that cannot block are exempt, and so are
// Peek/Discard of no more than what is buffered (Peek(r.Buffered()), Discard(len(<that Peek>))).
func wrapperIO(T *Terms, fn *ssa.Function, in ssa.Instruction) bool {
	c, ok := in.(*ssa.Call)
	if !ok || len(fn.Params) == 0 {
		return false
	}
	cs := CallSite{Instr: c, Common: &c.Call, Fn: fn}
	rv := recvOf(cs)
	if rv == nil {
		return false
	}
	rt := strip(T.T(rv))
	pre := "param:" + fn.Params[0].Name() + "."
	if !strings.HasPrefix(rt, pre) && !strings.HasPrefix(rt, "&"+pre) {
		return false
	}
	name := cs.Name()
	if i := strings.LastIndex(name, "."); i >= 0 {
		name = name[i+1:]
	}
	name = strings.TrimPrefix(name, "invoke:")
	switch name {
	case "Buffered", "Size", "Available", "LocalAddr", "RemoteAddr", "SetDeadline", "SetReadDeadline", "SetWriteDeadline":
		return false
	case "Peek", "Discard":
		a := strip(T.T(c.Call.Args[len(c.Call.Args)-1]))
		buffered := "call:bufio.Reader.Buffered(" + rt + ")"
		if a == buffered || a == "call:len(ext(call:bufio.Reader.Peek("+rt+","+buffered+"),0))" {
			return false
		}
	}
	return true
}

// ctxThroughFreeVar: the derivation chain of the context value v (context.With*, single-store locals) starts at a
// variable captured from an enclosing function.
func ctxThroughFreeVar(T *Terms, v ssa.Value) bool {
	for i := 0; i < 6 && v != nil; i++ {
		switch x := v.(type) {
		case *ssa.FreeVar:
			return true
		case *ssa.Extract:
			if c, ok := x.Tuple.(*ssa.Call); ok && strings.HasPrefix(calleeName(&c.Call), "context.With") {
				v = c.Call.Args[0]
				continue
			}
			return false
		case *ssa.UnOp:
			if _, isFV := x.X.(*ssa.FreeVar); isFV {
				return true // a captured variable holding the context
			}
			if a, ok := x.X.(*ssa.Alloc); ok {
				if val, ok := singleStore(a); ok {
					v = val
					continue
				}
			}
			return false
		case *ssa.Call:
			if strings.HasPrefix(calleeName(&x.Call), "context.With") {
				v = x.Call.Args[0]
				continue
			}
			return false
		default:
			return false
		}
	}
	return false
}
