package main

// E8: must-held lock-set analysis (static Eraser) over the functions of one package.

import (
	"go/types"
	"sort"
	"strings"

	"golang.org/x/tools/go/ssa"
)

// lockID names a mutex by the struct field it lives in ("Service.mutex"); one object per type is assumed
// (all methods operate on the same receiver), which is the standard lock-set simplification.
func lockID(addr ssa.Value) string {
	if fa, ok := addr.(*ssa.FieldAddr); ok {
		t := fa.X.Type().Underlying()
		if pt, ok := t.(*types.Pointer); ok {
			if n, ok := pt.Elem().(*types.Named); ok {
				return n.Obj().Name() + "." + fieldName(fa.X, fa.Field)
			}
		}
	}
	if g, ok := addr.(*ssa.Global); ok {
		return "global." + g.Name()
	}
	return ""
}

type lockSet map[string]bool

func (l lockSet) clone() lockSet {
	o := lockSet{}
	for k := range l {
		o[k] = true
	}
	return o
}
func (l lockSet) meet(o lockSet) lockSet {
	r := lockSet{}
	for k := range l {
		if o[k] {
			r[k] = true
		}
	}
	return r
}
func (l lockSet) eq(o lockSet) bool {
	if len(l) != len(o) {
		return false
	}
	for k := range l {
		if !o[k] {
			return false
		}
	}
	return true
}
func (l lockSet) String() string {
	var ks []string
	for k := range l {
		ks = append(ks, k)
	}
	sort.Strings(ks)
	return "{" + strings.Join(ks, ",") + "}"
}

// lockOp classifies a call as Lock (+1) / Unlock (-1) of a sync.Mutex / RWMutex and returns the lock id.
func lockOp(c *ssa.CallCommon) (string, int) {
	f := c.StaticCallee()
	if f == nil || f.Signature.Recv() == nil || len(c.Args) == 0 {
		return "", 0
	}
	rt := f.Signature.Recv().Type()
	if !isNamed(rt, "sync", "Mutex") && !isNamed(rt, "sync", "RWMutex") {
		return "", 0
	}
	id := lockID(c.Args[0])
	if id == "" {
		return "", 0
	}
	switch f.Name() {
	case "Lock":
		return id, +1
	case "Unlock":
		return id, -1
	case "RLock":
		return id + "(r)", +1
	case "RUnlock":
		return id + "(r)", -1
	}
	return "", 0
}

// LockSets holds, per instruction, the set of locks that are held on every path reaching it.
type LockSets struct {
	At    map[ssa.Instruction]lockSet
	Entry map[*ssa.Function]lockSet
}

// ComputeLockSets runs the intraprocedural must-analysis with entry states propagated from call sites:
// exported functions (and functions without a known caller) start with nothing held; unexported
// functions and closures start with the intersection over their call sites; a function started with
// `go` starts with nothing held; a deferred call starts with what is held at the function's exits,
// provided no deferred unlock registered later releases it first.
func ComputeLockSets(p *Prog, cg *CallGraph, fns []*ssa.Function) *LockSets {
	ls := &LockSets{At: map[ssa.Instruction]lockSet{}, Entry: map[*ssa.Function]lockSet{}}
	fns = append(append([]*ssa.Function(nil), fns...), viewsOf(p, fns)...)
	for _, f := range fns {
		ls.Entry[f] = lockSet{}
	}
	analyze := func(f *ssa.Function) {
		in := map[*ssa.BasicBlock]lockSet{}
		in[f.Blocks[0]] = ls.Entry[f].clone()
		work := []*ssa.BasicBlock{f.Blocks[0]}
		for len(work) > 0 {
			b := work[0]
			work = work[1:]
			h := in[b].clone()
			for _, instr := range b.Instrs {
				ls.At[instr] = h.clone()
				switch x := instr.(type) {
				case *ssa.Call:
					if id, d := lockOp(&x.Call); d > 0 {
						h[id] = true
					} else if d < 0 {
						delete(h, id)
					}
				case *ssa.RunDefers:
					// deferred unlocks run here
					for _, bb := range f.Blocks {
						for _, i2 := range bb.Instrs {
							if df, ok := i2.(*ssa.Defer); ok {
								if id, d := lockOp(&df.Call); d < 0 {
									delete(h, id)
								}
							}
						}
					}
				}
			}
			for _, s := range b.Succs {
				old, ok := in[s]
				nv := h
				if ok {
					nv = old.meet(h)
					if nv.eq(old) {
						continue
					}
				}
				in[s] = nv.clone()
				work = append(work, s)
			}
		}
	}
	isFn := map[*ssa.Function]bool{}
	for _, f := range fns {
		isFn[f] = true
	}
	for round := 0; round < 20; round++ {
		for _, f := range fns {
			analyze(f)
		}
		changed := false
		for _, f := range fns {
			if f.Parent() == nil && f.Object() != nil && f.Object().Exported() {
				continue
			}
			sites := cg.Callers[f]
			if len(sites) == 0 {
				continue
			}
			var acc lockSet
			for _, s := range sites {
				var here lockSet
				switch d := s.Instr.(type) {
				case *ssa.Go:
					here = lockSet{}
				case *ssa.Defer:
					here = nil
					pf := d.Parent()
					for _, bb := range pf.Blocks {
						for _, i2 := range bb.Instrs {
							if rd, ok := i2.(*ssa.RunDefers); ok {
								if here == nil {
									here = ls.At[rd].clone()
								} else {
									here = here.meet(ls.At[rd])
								}
							}
						}
					}
					if here == nil {
						here = lockSet{}
					}
					// unlocks deferred after this one run before it
					if reach, _ := reachInstr(pf, d, func(i ssa.Instruction) bool {
						if df, ok := i.(*ssa.Defer); ok {
							_, dd := lockOp(&df.Call)
							return dd < 0
						}
						return false
					}, nil, nil); reach {
						here = lockSet{}
					}
				default:
					here = ls.At[s.Instr]
					if here == nil {
						here = lockSet{}
					}
				}
				if acc == nil {
					acc = here.clone()
				} else {
					acc = acc.meet(here)
				}
			}
			if acc == nil {
				acc = lockSet{}
			}
			if !acc.eq(ls.Entry[f]) {
				ls.Entry[f] = acc
				changed = true
			}
		}
		if !changed {
			return ls
		}
	}
	return nil // no fixpoint: caller fails closed
}

// FieldAccess is one read or write of a struct field (including element accesses through the loaded value).
type FieldAccess struct {
	Fn    *ssa.Function
	Field string
	Write bool
	What  string // "load", "store", "map lookup", "map update", "range", "escape", ...
	Instr ssa.Instruction
}

// fieldAccesses enumerates accesses to fields of *nt in the given functions.
func fieldAccesses(fns []*ssa.Function, nt *types.Named) []FieldAccess {
	// the Service's state includes the members of the structs it holds by value (roles.go: serviceStateTypes)
	if len(serviceStateTypes) > 0 && nt == serviceStateTypes[0] {
		var out []FieldAccess
		for _, stt := range serviceStateTypes {
			out = append(out, fieldAccesses1(fns, stt)...)
		}
		return out
	}
	return fieldAccesses1(fns, nt)
}

func fieldAccesses1(fns []*ssa.Function, nt *types.Named) []FieldAccess {
	var out []FieldAccess
	st := nt.Underlying().(*types.Struct)
	for _, f := range fns {
		for _, b := range f.Blocks {
			for _, in := range b.Instrs {
				fa, ok := in.(*ssa.FieldAddr)
				if !ok {
					continue
				}
				pt, ok := fa.X.Type().Underlying().(*types.Pointer)
				if !ok || !types.Identical(pt.Elem(), nt) {
					continue
				}
				fname := st.Field(fa.Field).Name()
				if isServiceState(st.Field(fa.Field).Type()) {
					continue // a nested state struct: its members are accounted for individually
				}
				if _, fresh := fa.X.(*ssa.Alloc); fresh && len(serviceStateTypes) > 0 && nt != serviceStateTypes[0] {
					continue // a variable of the nested struct's type (a copy to report, a value being built), not the Service's own
				}
				for _, r := range *fa.Referrers() {
					switch u := r.(type) {
					case *ssa.Store:
						if u.Addr == ssa.Value(fa) {
							out = append(out, FieldAccess{f, fname, true, "store", u})
						}
					case *ssa.UnOp:
						out = append(out, FieldAccess{f, fname, false, "load", u})
						_, isMap := u.Type().Underlying().(*types.Map)
						_, isSlice := u.Type().Underlying().(*types.Slice)
						if !isMap && !isSlice {
							continue
						}
						for _, rr := range *u.Referrers() {
							switch x := rr.(type) {
							case *ssa.MapUpdate:
								if x.Map == ssa.Value(u) {
									out = append(out, FieldAccess{f, fname, true, "map update", x})
								}
							case *ssa.Lookup:
								out = append(out, FieldAccess{f, fname, false, "map lookup", x})
							case *ssa.Range:
								for _, nx := range *x.Referrers() {
									out = append(out, FieldAccess{f, fname, false, "map iteration", nx})
								}
							case *ssa.IndexAddr:
								w := false
								for _, r3 := range *x.Referrers() {
									if s3, ok := r3.(*ssa.Store); ok && s3.Addr == ssa.Value(x) {
										w = true
										out = append(out, FieldAccess{f, fname, true, "element store", s3})
									}
								}
								if !w {
									out = append(out, FieldAccess{f, fname, false, "element load", x})
								}
							case *ssa.Call:
								if bi, ok := x.Call.Value.(*ssa.Builtin); ok {
									switch bi.Name() {
									case "len", "cap":
									case "delete":
										out = append(out, FieldAccess{f, fname, true, "map delete", x})
									default:
										out = append(out, FieldAccess{f, fname, false, "builtin " + bi.Name(), x})
									}
								} else if isMap {
									out = append(out, FieldAccess{f, fname, false, "map escapes to a call", x})
								}
							case *ssa.Slice, *ssa.DebugRef:
							default:
								if isMap {
									// the map value leaves the expression where the lock state is known
									switch rr.(type) {
									case *ssa.Store, *ssa.Return, *ssa.Phi, *ssa.MakeInterface, *ssa.MakeClosure, *ssa.Send:
										out = append(out, FieldAccess{f, fname, false, "map value escapes", rr})
									}
								}
							}
						}
					default:
						// address taken for something else (method call on the field, passing &field)
						if ci, ok := r.(ssa.CallInstruction); ok {
							if id, d := lockOp(ci.Common()); d != 0 && id != "" {
								continue
							}
							what := "address passed to call"
							if sc := ci.Common().StaticCallee(); sc != nil && sc.Signature.Recv() != nil {
								rt := sc.Signature.Recv().Type()
								if pt, ok := rt.(*types.Pointer); ok {
									rt = pt.Elem()
								}
								if n, ok := rt.(*types.Named); ok && n.Obj().Pkg() != nil && (n.Obj().Pkg().Path() == "sync" || n.Obj().Pkg().Path() == "sync/atomic") {
									what = "synchronised access through " + n.Obj().Pkg().Name() + "." + n.Obj().Name()
								}
							}
							out = append(out, FieldAccess{f, fname, true, what, r})
						}
					}
				}
			}
		}
	}
	return out
}
